#!/venv/bin/python
"""Regenerates MANIFEST.json from the table below (one row per claimed property) and validates it."""
import json, pathlib, sys
V = pathlib.Path(__file__).resolve().parent.parent
CHECKS = {
 "C15": dict(
   technique="property-based testing: Hypothesis-generated points/vectors in each system's domain (all octants, pi-multiples and rational angles) vs. harness textbook maps and frames (reference model); round-trip, inverse-equals-transpose, direct-equals-via-third (differential) over all 6 ordered pairs and 6 triples; Lame coefficients vs |dX/dq_i|",
   text="640 generated cases + 27 enumerated quick / 20k thorough; every case exercises all ordered pairs and triples: scalar conversions there-and-back and against the harness maps, base-vector tables orthonormal with det +1, inverse = transpose, composition via the third system, convert_point / convert_vector preserve Cartesian position and components, scale factors and Jacobian (of both objects of each type) equal the derivatives of the position map, unsupported pairs refused; coordinates reach AppliedPoint in generated container kinds; float vectors/points at dyadic scales must convert linearly / homogeneously.",
   note="Trusted: harness maps X(q) and frames in the experimental convention (r, theta=polar, phi=azimuth), 50-digit mpmath. AppliedPoint.equals is only counted (relies on simplify).",
   ref="DESIGN.md section 2/C15; notes/C15.md"),
 "C16": dict(
   technique="property-based testing: generated linear combinations of vector atoms/products with symbolic coefficients and every choice of unknown vs. the R^3 component model (reference model) under 2 rational assignments; residual check for solve_for_scalar; structural + value check for apply; refusal classes",
   text="5200 cases quick / 60k thorough: with E = lhs - rhs and s the coefficient of the isolated term recovered from the description, the returned equation must satisfy ret.lhs - ret.rhs == E/s (reduce on) or +-E (reduce off); unknown absent -> ValueError, scalar expression -> TypeError; solve_for_scalar results substituted back give residual 0 (including radical, pole and positive-unknown equations whose candidate roots must be checked); coefficients include roots of products of possibly negative symbols; apply maps both sides.",
   note="Trusted: vp/model/r3.py. 'No answer' from SymPy's solve (IndexError etc.) is counted, not judged; numerically degenerate assignments (coplanar vectors) are discarded by a 120-digit conditioning probe.",
   ref="DESIGN.md section 2/C16; notes/C16.md"),
 "C12": dict(
   technique="property-based testing: generic undefined-function fields over all shapes (symbolic identities decide a whole shape) + Hypothesis-generated concrete fields vs. a harness-computed Cartesian truth through the local orthonormal frame (reference model), curl grad = 0 and div curl = 0 identities",
   text="54 generic shapes (3 systems x scalar / 0-4 components x construction modes) are judged symbolically against a harness derivation (frame vectors and inverse Jacobian of the textbook maps), so the nine curvilinear formulas are compared for arbitrary smooth fields; 240 generated concrete fields quick / 4000 thorough are judged numerically at 5 regular points through a second harness derivation; zero padding and the 4-component refusal are checked; components include ties (two equal components) and even roots of perfect squares.",
   note="Trusted: the harness maps (legacy spherical convention r, theta=azimuth, phi=polar, asserted at start-up), SymPy diff/simplify. Every one of the 42 formula entries is touched in every run (reported in evidence).",
   ref="DESIGN.md section 2/C12; notes/C12.md"),
 "C13": dict(
   technique="property-based testing: Hypothesis-generated polynomial/trigonometric fields x circles, ellipses, rectangles, tilted discs, paraboloid/cone caps, boxes, shells; differential oracle between the library's boundary and region routes plus harness closed forms monomial by monomial; metamorphic reparametrisation and orientation relations",
   text="160 cases quick / 2400 thorough, one per worker task with a hang guard: Stokes (curve vs curl over surface), Green (curve flux vs divergence over parametrised and implicit regions), Gauss (six faces vs volume); every route is also compared with a harness closed form so two library routes cannot be wrong together; results must be free of coordinate variables, invariant under parameter speed (affine and non-linear backward-running parametrisations), negated by orientation reversal; parameter domains include non-rectangular ones and the system's own base scalars in swapped roles.",
   note="Trusted: harness closed forms in vp/checks/c13_model.py (no SymPy integrate), degree <= 3 fields, regions SymPy can integrate. Hang-guard expiries are inconclusive.",
   ref="DESIGN.md section 2/C13; notes/C13.md"),
 "C19": dict(
   technique="exhaustive sweep of all 735 generated pages (file set vs harness tree scan, member completeness, formulas read back with the harness parsers and compared by value with the imported module's own attribute, symbol table, role targets) + byte-level determinism (same process, fresh process) + stateful Hypothesis machine over generation/library-use interleavings with global-state invariants",
   text="Full generation must succeed, produce exactly the expected page set, be byte-identical when repeated in the same and in a fresh process, leave sympy's evaluate flag and canary computations unchanged; every generated :code:/math formula must denote the value of that module's own equation (612 formulas read back), every symbol-table row (2687) must equal the imported attribute's renderings, every documented member/function must be listed, every role-emitted cross-reference (2152) must resolve; 60 histories quick / 400 thorough interleave single-page generation, full generation and library use.",
   note="Trusted: the harness parsers and M-interp (as C17/C18), the harness title scanner. 8 formulas outside the parsers are listed as unparsed. Two open known findings (factor order follows internal names across repeated generations; statistical_weight LaTeX).",
   ref="DESIGN.md section 2/C19"),
 "C03": dict(
   technique="property-based testing over process-level histories: Hypothesis-generated id-counter states at digit boundaries, garbage creations and import orders, each executed in a fresh interpreter; differential oracle against the reference history (import success, value fingerprints of equations, calculation results)",
   text="Every catalogue module is observed when imported first with fresh counters (reference) and under generated counter states that make its own symbols straddle 9/10, 99/100, ... boundaries (1 state per module quick, 5 thorough), plus one prior-use history per module from 22 kinds of earlier library use (objects, float quantities, copies and evaluations of constants, Symbolic wrappers around like-printing symbols, objects made in a second thread, ...; all kinds in thorough, a rotating kind or the union of all kinds in quick), plus 8 (64) full-catalogue imports in generated orders; import must succeed and every equation's value fingerprint (keyed by display name + dimension) and every calculation result must equal the reference.",
   note="Trusted: a fork right after `import symplyphysics` equals a fresh interpreter with that pre-history; M-interp value semantics; PYTHONHASHSEED pinned. Histories are sampled, not enumerated; address-dependent effects are not controlled. One open known finding (focal_length_of_a_concave_spherical_mirror).",
   ref="DESIGN.md section 2/C03"),
 "C04": dict(
   technique="property-based testing: Hypothesis-generated (actual, declared) dimension-vector pairs, value shapes and call styles against the M-dim model verdict (reference model + metamorphic invariance under magnitude/prefix/call style), plus exhaustive sweep of all 1744 catalogue guards",
   text="4k generated gate cases quick / 60k thorough over synthesised decorated functions (input, output, output_same validators; scalars, sequences with the bad element at a generated position, quantity vectors; Dimension/Symbol/Function/IndexedSymbol/Symbolic/tuple declarations); the model predicts accepted / TypeError / UnitsError and that the body runs iff accepted. Exhaustive: every guard of every decorated catalogue function names an existing parameter and refuses 2 (6) wrong-dimension values with an error naming the parameter before the body runs.",
   note="Trusted: M-dim arithmetic, closure introspection of the decorators. zoo is generated but not judged. Two open known findings (all-zero QuantityVector refused; one catalogue guard naming a non-existent parameter that an existing test pins).",
   ref="DESIGN.md section 2/C04; notes/C04.md"),
 "C05": dict(
   technique="property-based testing: expression trees generated together with their intended exact SI value and dimension vector (reference model), single-spoiler and wildcard mutations, cancelling partial sums",
   text="4k trees quick / 80k thorough: valid trees must give the model's SI value and dimension; trees with exactly one spoiler (inequivalent term, dimensional exponent or function argument, free symbol, derivative) must be refused with ValueError; wildcard mutations (zero/inf/NaN term of a foreign dimension) must still be accepted; verdicts are judged on the terms as written. Magnitudes range from 10**-400 to 10**400 (exact), dimensionless exponents/arguments are also written as compounds of derived units (hertz*second, joule/(newton*meter)).",
   note="Trusted: vp/model/qexpr.py (exact SymPy numbers + M-dim + M-units). NaN under Min/Max, zoo and infinite exponents are discarded and counted.",
   ref="DESIGN.md section 2/C05; notes/C05.md"),
 "C06": dict(
   technique="property-based testing: generated trees over dimensioned symbols/functions/derivatives/quantities vs. M-dim composition (reference model), value-equality of the returned expression, refusal exactly for spoiled trees, commuting diagram with Quantity substitution (differential with C05)",
   text="3k trees quick / 60k thorough; the returned dimension must equal the model composition of the declared leaf dimensions, the returned expression must be value-equal to the input, errors must occur exactly for spoiled trees, and substituting non-zero quantities for the symbols must give a quantity of the inferred dimension. Applied library functions also get composite and spoiled arguments.",
   note="Trusted: vp/model/qexpr.py; applied functions interpreted by a fixed polynomial. Five open known findings (minor classes of collect_expression_and_dimension) are excluded by construction and counted.",
   ref="DESIGN.md section 2/C06; notes/C06.md"),
 "C07": dict(
   technique="property-based testing: generated quantities x independently generated equivalent/inequivalent target unit expressions vs. exact M-units factors (reference model), composition/round-trip/linearity relations, evaluate_expression value preservation, Celsius/kelvin round trips, refusal classes for float exponents and for the non-SI base dimension information (bit/byte)",
   text="4k cases quick / 100k thorough over base, derived, prefixed units and products/quotients/powers of them; n = convert_to(q, u) must equal model(q)/model(u) exactly for rational cases (1e-12 otherwise), conversions compose and invert, convert_to_si equals the scale factor, inequivalent targets are refused.",
   note="Trusted: vp/model/units.py hand-typed SI table (self-checked against SymPy's own unit definitions), vp/model/unitexpr.py. Refusal of a zero magnitude for an inequivalent target is left unjudged (wildcard rule vs property text).",
   ref="DESIGN.md section 2/C07; notes/C07.md"),
 "C08": dict(
   technique="property-based testing: operand pairs constructed around the tolerance boundary (must-pass band, must-fail band, unjudged strip) with independent units, metamorphic symmetry and unit-independence relations, vector conjunction",
   text="20k pairs quick / 400k thorough for assert_equal, assert_equal_vectors, approx_equal_quantities, approx_equal_numbers: verdict must follow the band semantics of the property, refuse inequivalent dimensions, be symmetric without absolute tolerance, not depend on units, compare bare numbers only under an explicit dimension and vectors component-wise with equal lengths. Magnitudes 1e-36..1e30; inequivalent dimensions include float-exponent neighbours (m**1.5 vs m**2) and two quantities compared under an explicit dimension= keyword.",
   note="Trusted: the band semantics as written in the property; pairs closer than a stated margin to a boundary are discarded. The absolute tolerance is judged only where the gram-scaled and the SI reading agree (documented ambiguity).",
   ref="DESIGN.md section 2/C08; notes/C08.md"),
 "C09": dict(
   technique="stateful property-based testing: Hypothesis RuleBasedStateMachine over creation/clone histories with colliding display names, no-aliasing invariants after every step (subs/diff/solve/dict keys), clone postconditions, printing invariant; collect mode with replayable step lists",
   text="242 histories x 40 steps quick / 2.3k x 60 thorough over Symbol, IndexedSymbol, Function, Quantity, CoordinateSystem, VectorSymbol/VectorFunction creations and clones with tiny name pools and counter bumps to digit boundaries; after every step all live objects must be pairwise distinct in substitution, differentiation and solving, clones keep dimension/display names/assumptions and append subscripts to both names, and the three printers never show generated internal names. Plus bursts in forked processes: 9-24 objects under one display name followed by digit-suffixed names, half of them optionally in a second thread, all pairwise distinct and distinct from the catalogue's constants and common symbols, which keep their meaning.",
   note="Trusted: the model dict maintained by the rules. Two open known findings (printing of applied VectorFunctions; IndexedSymbol rebuilt by .doit()).",
   ref="DESIGN.md section 2/C09; notes/C09.md"),
 "C20": dict(
   technique="exhaustive enumeration of the constants catalogue against an independent CODATA/IAU reference table typed into the harness (differential oracle), unit views through the M-units table, the seven identities; plus property-based use-histories: Hypothesis-generated sequences of public-API uses of the constants, each in a forked process, after which the table is judged again (invariant over the history), shrunk to a minimal history",
   text="All 27 Quantity constants of symplyphysics.quantities (25 exported + 2 defined but not exported) are compared with reference value, dimension vector and a per-row tolerance derived from the digits written in the source; every constant is additionally viewed in every tabled unit of its dimension; the seven identities of the property are checked at 1e-9. 88 (quick) / 1600 (thorough) generated use-histories of 1-6 steps (copies with and without dimension=/names, products, ratios, powers, conversions, comparisons) must leave every constant and identity as it was.",
   note="Trusted: the reference table in vp/checks/c20.py (CODATA 2018/2022, IAU 2015). The table is a finite space, enumerated completely; the histories are sampled.",
   category="exploration",
   ref="DESIGN.md section 2/C20; notes/C20.md"),
 "C02": dict(
   technique="property-based testing: exhaustive discovery of the 777 public catalogue functions + Hypothesis-generated argument recipes (magnitudes, signs, units, prefixes); residual oracle against the published equation at 50 digits with a backward-error tolerance, and unit/call-style metamorphic relation; vector laws: round trips between mutually solved forms and a differential of every vector calculate function against the module's own law function in SI, with 1-3 written components; matrix laws entry by entry; an extra recipe per function ties parameters of equal dimension to the same SI value, and infinite sides of piecewise laws are compared as extended reals",
   text="For every function whose parameters and output correspond one-to-one to symbols of a published algebraic equation (503 of 777) the returned value and the arguments are substituted into that equation (root-agnostic residual; documented magnitude/rounded-up functions are compared with that operation applied to the harness's own solution); for every function the same physical arguments written in other units and passed by keyword must give the same SI result. 2 recipes per function quick, 24 thorough.",
   note="Trusted: parameter<->symbol correspondence from the guard symbols / naming convention, SI values computed by the harness unit table, SymPy N at 50 digits. Calls that raise are not violations (counted; never-returning functions listed as uncovered; sequence-valued and field-valued functions are not generated). Ill-conditioned cases (extreme magnitudes, catastrophic cancellation in double precision) are discarded and counted. Two open known findings.",
   ref="DESIGN.md section 2/C02"),
 "C01": dict(
   technique="exhaustive enumeration of the 677 published equations with a harness dimension-vector model (reference-model oracle) + generated Buckingham unit-rescaling metamorphic test at 50 digits; the two oracles cross-check each other",
   text="Every public Relational of every importable catalogue module is walked with the harness's own exact exponent-vector arithmetic from the declared leaf dimensions (sums/relations/min-max/piecewise agree, exponents and exp/trig/hyperbolic arguments dimensionless, derivative/integral rules), and tested numerically under generated environments and generated changes of units with multiplicatively independent factors. Exhaustive over programs, sampled over values; walker and numeric test must agree or the run is a harness error.",
   note="Trusted: declared dimensions are read leaf by leaf through dimsys_SI; wildcard rule for plain SymPy symbols, zero and O(); log and special functions unconstrained as in the property text. 1 module cannot be imported (C03). One open known finding (neutron_flux_for_uniform_sphere).",
   ref="DESIGN.md section 2/C01"),
 "C10": dict(
   technique="property-based testing: exhaustive generic-symbol shapes (all length triples 0..3) + Hypothesis-generated numeric/symbolic/polynomial components vs. a Fraction component model and algebraic laws (reference model + metamorphic identities), exhaustive refusal table",
   text="All 64 length triples with generic symbols (polynomial identities: one generic case decides a shape), 2.4k generated cases quick / 48k thorough in five component flavours, and a 1291-row refusal table over coordinate-system combinations; every result is compared component-wise with the harness model at 3 rational assignments, every law by an exact rational-function residual and, for symbols without assumptions, at one complex (Gaussian-rational) assignment.",
   note="Trusted: textbook component formulas in the check module, SymPy expand/cancel as decision procedure for rational identities. Float flavour uses dyadic floats with a stated tolerance.",
   ref="DESIGN.md section 2/C10; notes/C10.md"),
 "C11": dict(
   technique="property-based testing: Hypothesis-generated points/vectors/fields in all octants vs. harness textbook coordinate maps at 40+ digits (reference model), there-and-back round trips, curvilinear dot/magnitude/scale vs Cartesian (differential), refusal table",
   text="1.3k vector cases, 650 field cases, 260 own-base-scalar cases and the refusal table per quick run (20x in thorough): rebase there and back, rebase vs harness map, dot/magnitude/scaling in curvilinear systems vs Cartesian truth (k>0 and k<0 separately), scalar fields re-expressed and applied at corresponding points, cylindrical<->spherical and wrong point kinds refused; 480 (8k) float vectors at magnitudes 1e-30..1e15 with a tolerance relative to the vector.",
   note="Trusted: the harness maps typed from the textbook with the library's legacy ordering (r, theta=azimuth, phi=polar), cross-checked once against transformation_to_system; points are generated away from singularities. Only identity-oriented parent/child pairs from coordinates_transform are exercised.",
   ref="DESIGN.md section 2/C11; notes/C11.md"),
 "C17": dict(
   technique="property-based testing: round-trip oracle (code_str -> harness Pratt parser -> random interpretation at 50 digits) over Hypothesis-generated canonical trees + exhaustive sweep of the 619 documented catalogue members in source form",
   text="Every generated canonical tree (4k quick / 150k thorough) and every documented catalogue equation in source form is rendered, parsed by an independent parser under ordinary precedence (lexicon of display names), and both sides are evaluated under 3 random environments; calculus nodes are linear functionals. Detects dropped brackets, lost signs, swapped arguments, wrong names; a rendering that mentions a plain identifier which is not the display name of any atom of the expression is a violation (foreign-symbol); other renderings outside the parser grammar are counted as unparsed, not as correct.",
   note="Trusted: the grammar in vp/parse/code_parser.py as 'ordinary reading', the value semantics in vp/model/interp.py, mpmath. A Float atom means the decimal SymPy shows for it. Unevaluated (non-canonical) shapes are covered only through the catalogue.",
   ref="DESIGN.md section 2/C17"),
 "C18": dict(
   technique="property-based testing: well-formedness scan + round-trip oracle (latex_str -> harness LaTeX reader -> random interpretation) over generated canonical trees + exhaustive catalogue sweep",
   text="Same two sources as C17; each LaTeX string must pass the brace/\\left-\\right/environment scan and, read as mathematics by an independent reader (juxtaposition = product, prefix operators take the rest of their product), evaluate to the same value as the original under 3 random environments.",
   note="Trusted: the reading rules in vp/parse/latex_parser.py, vp/model/interp.py. 13 catalogue renderings (Order terms, Bessel/Hermite heads, derivatives with respect to applied functions) are outside the reader and listed as unparsed in the evidence. One open known finding (statistical_weight_of_macrostate).",
   ref="DESIGN.md section 2/C18"),
 "C14": dict(
   technique="property-based testing: Hypothesis-generated vector-expression trees + creation-order permutations vs. harness R^3 component model (reference-model oracle), dual-number derivative oracle, greedy shrinking to replay files",
   text="Generated search (8k trees + 1k derivative cases quick, 300k + 30k thorough, 16 shards) over expression trees, operand repetitions and relative id() orders of the atoms; every auto-evaluated / doit() / diff() result is compared with an independent component model in 60-digit arithmetic. Finds rule-level rewrite errors that only fire for particular identity orders; does not prove absence.",
   note="Trusted: the textbook component formulas in vp/model/r3.py, mpmath arithmetic, SymPy's Add/Mul/Pow semantics. id() order is controlled through sorting fresh atoms; other CPython address effects are not explored.",
   ref="DESIGN.md section 2/C14"),
}
NOT_BUILT = "check not built yet in this round (planned in DESIGN.md section 2); no claim is made"
def main():
    props = [json.loads(l) for l in (V / "properties.jsonl").read_text().splitlines() if l.strip()]
    checks = []
    na = []
    for p in props:
        pid = p["id"]
        c = CHECKS.get(pid)
        if c is None:
            na.append({"property_id": pid, "reason": NA.get(pid, NOT_BUILT)})
            continue
        checks.append({
          "property_id": pid,
          "quick_cmd": f"./run_check.sh {pid} quick",
          "thorough_cmd": f"./run_check.sh {pid} thorough",
          "evidence_file": f"/verif/evidence/{pid}.json",
          "replay_cmd_template": f"./run_check.sh {pid} replay {{path}}",
          "engine": "vp",
          "level_claimed": {"category": c.get("category", "exploration"), "text": c["text"], "design_ref": c["ref"]},
          "level_note": c["note"],
          "technique": c["technique"],
        })
    man = {
      "version": 1,
      "setup_cmd": "./setup.sh",
      "hooks": {
        "guard": "SYMPLYPHYSICS_VERIF",
        "enable": "run_check.sh exports SYMPLYPHYSICS_VERIF=1; no source hook was needed (decorator specs are read by closure introspection, id counters are preloaded through sys.modules), so the variable currently guards nothing in /repo",
        "baseline_off_cmd": "cd /repo && /venv/bin/python -m pytest -ra -q -p no:cacheprovider --timeout=900 --continue-on-collection-errors",
        "source_commits": [],
        "add_only": True,
      },
      "engines": [{"name": "vp", "path": "/verif/vp", "serves_properties": [c["property_id"] for c in checks],
                   "kind_free_text": "Hypothesis 6.168 strategies emitting JSON case descriptions, harness-owned reference models and parsers, 16-way forked task pool, greedy JSON shrinker, replay files"}],
      "checks": checks,
      "not_applicable": na,
      "notes": "All checks: ./run_check.sh <ID> quick|thorough|replay <file>; exit 0 held / 1 VIOLATION / 2 harness error. Known findings: known_findings.json. Genuine defects repaired in /repo by 'fix:' commits are listed there with status=fixed.",
    }
    (V / "MANIFEST.json").write_text(json.dumps(man, indent=1) + "\n")
    try:
        import jsonschema
        jsonschema.validate(man, json.loads(open("/root/.vp/MANIFEST.schema.json").read()))
        print("MANIFEST valid;", len(checks), "checks,", len(na), "not_applicable")
    except ImportError:
        print("jsonschema not available; wrote MANIFEST without validation")
NA = {}
if __name__ == "__main__":
    main()
