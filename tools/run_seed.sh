#!/bin/bash
# usage: tools/run_seed.sh <seed-id> <check ids...> : applies the seeded patch to /repo, runs the quick checks, undoes it.
sid="$1"; shift
git -C /repo apply /verif/seeded/$sid/patch.diff || exit 3
for id in "$@"; do
  start=$(date +%s)
  out=$(cd /verif && VERIF_NPROC=${VERIF_NPROC:-16} ./run_check.sh $id ${TIER:-quick} 2>&1); rc=$?
  end=$(date +%s)
  keys=$(echo "$out" | grep "^VIOLATION" | grep -o "key=[^ ]*" | sort -u | head -4 | tr '\n' ' ')
  echo "SEED $sid check=$id exit=$rc secs=$((end-start)) $keys"
done
git -C /repo checkout -- . ; git -C /repo status --short | head -3
