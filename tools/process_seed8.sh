#!/bin/bash
# usage: tools/process_seed8.sh <ID> [extra check ids] : collect round-8 seed from /tmp/seed8-<ID>/OUT into seeded/<ID>h,
# confirm it in a fresh worktree, then run the quick checks against a scratch worktree with the patch (VERIF_REPO), so /repo is untouched.
id="$1"; shift; d=/verif/seeded/${id}h; mkdir -p $d
cp /tmp/seed8-$id/OUT/patch.diff /tmp/seed8-$id/OUT/demo.py /tmp/seed8-$id/OUT/meta.json $d/ || exit 3
NP=${NP:-8} /verif/tools/confirm_seed.sh ${id}h 2>&1 | grep CONFIRM
W=/dev/shm/seedrun-$id
git -C /repo worktree add -q --detach $W HEAD || exit 3
git -C $W apply $d/patch.diff || exit 3
for c in $id "$@"; do
  start=$(date +%s)
  out=$(cd /verif && VERIF_OUT=/dev/shm/seedout VERIF_REPO=$W VERIF_NPROC=${VERIF_NPROC:-12} ./run_check.sh $c ${TIER:-quick} 2>&1); rc=$?
  end=$(date +%s)
  keys=$(echo "$out" | grep "^VIOLATION" | grep -o "key=[^ ]*" | sort -u | head -4 | tr '\n' ' ')
  echo "SEED ${id}h check=$c exit=$rc secs=$((end-start)) $keys"
  [ $rc -ne 1 ] && echo "$out" | grep -v "^WARNING\|^KNOWN" | tail -3
done
git -C /repo worktree remove --force $W; rm -rf $W /dev/shm/seedout
