#!/bin/bash
# usage: tools/mutant.sh <label> <relative file under symplyphysics/> <python expr: s -> s'> -- <check ids...>
# Copies the package to /dev/shm, applies the edit, runs the quick checks against it, removes the copy.
label="$1"; file="$2"; edit="$3"; shift 3; [ "$1" = "--" ] && shift
D=/dev/shm/vp-mut-$$-$label
mkdir -p $D && cp -r /repo/symplyphysics $D/ && find $D -name __pycache__ -prune -exec rm -rf {} + 
/venv/bin/python - "$D/symplyphysics/$file" "$edit" <<'PY' || { rm -rf $D; exit 3; }
import sys
p, edit = sys.argv[1], sys.argv[2]
s = open(p).read()
t = eval(edit, {"s": s})
assert t != s, "mutation did not change the file"
open(p, "w").write(t)
PY
for id in "$@"; do
  start=$(date +%s)
  out=$(VERIF_REPO=$D PYTHONPYCACHEPREFIX=$D/pyc VERIF_NPROC=${VERIF_NPROC:-6} /verif/run_check.sh $id quick 2>&1); rc=$?
  end=$(date +%s)
  keys=$(echo "$out" | grep -o "key=[^ ]*" | sort -u | head -3 | tr '\n' ' ')
  echo "MUTANT $label check=$id exit=$rc secs=$((end-start)) $keys"
done
rm -rf $D
