#!/bin/bash
# quiet-check of the committed tree, part B: the expensive thorough commands
cd "$(dirname "$0")/.."
export VERIF_NPROC=${VERIF_NPROC:-8}
tools/multiseed.sh "1" "C13 C09 C06 C11 C02 C03" thorough
