#!/bin/bash
# Single entry point: run_check.sh <property-id> <quick|thorough>   |   run_check.sh <property-id> replay <file>
# exit 0 = property held on everything explored; 1 = VIOLATION line(s) printed; 2 = harness error.
HERE="$(cd "$(dirname "${BASH_SOURCE[0]}")" && pwd)"
cd "$HERE" || exit 2
export VERIF_REPO="${VERIF_REPO:-/repo}"
export VERIF_SEED="${VERIF_SEED:-1}"
export PYTHONHASHSEED=0
export PYTHONPATH="$HERE:$VERIF_REPO"
export PYTHONPYCACHEPREFIX="$HERE/.cache/pyc"
export SYMPLYPHYSICS_VERIF=1
export PIP_NO_INDEX=1
export OMP_NUM_THREADS=1
PY="${VERIF_PYTHON:-/venv/bin/python}"
exec "$PY" -X faulthandler -m vp.run "$@"
